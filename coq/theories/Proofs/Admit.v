(* Proofs/Admit.v — invariants of the admission automaton of Model/Admit.v under EVERY
   interleaving of the atomic steps of any number of sessions, and the refutations for the
   pinned code. *)
From Coq Require Import String Lia ZArith ZifyN ZifyNat ZifyBool.
From Receptor Require Import Model.Admit Proofs.Proto.
Open Scope list_scope.
Open Scope N_scope.

(* ---------- lists of sessions ---------- *)

Lemma nth_error_set_nth_same {A} (l : list A) i x y :
  nth_error l i = Some y -> nth_error (set_nth l i x) i = Some x.
Proof.
  revert i. induction l as [|a l IH]; intros [|i] H; simpl in *; try discriminate; [reflexivity|now apply IH].
Qed.

Lemma nth_error_set_nth_other {A} (l : list A) i j x :
  i <> j -> nth_error (set_nth l i x) j = nth_error l j.
Proof.
  revert i j. induction l as [|a l IH]; intros [|i] [|j] H; simpl; try reflexivity; try contradiction.
  apply IH. intro; subst; contradiction.
Qed.

Lemma nth_error_snoc {A} (l : list A) x j e :
  nth_error (l ++ [x]) j = Some e ->
  nth_error l j = Some e \/ (j = List.length l /\ e = x).
Proof.
  revert j. induction l as [|a l IH]; intros [|j] H; simpl in *.
  - right. inversion H. now split.
  - destruct j; discriminate.
  - now left.
  - apply IH in H as [H|[H1 H2]]; [now left|right]. split; [now f_equal|assumption].
Qed.

Lemma amem_true {V} (m : list (bytes * V)) k : amem m k = true <-> exists v, aget m k = Some v.
Proof.
  unfold amem. destruct (aget m k); split; intro H; try reflexivity; try discriminate.
  - eexists; reflexivity.
  - destruct H; discriminate.
Qed.

Lemma beq_false_neq a b : beq_bytes a b = false <-> a <> b.
Proof.
  split; intro H.
  - intro E; subst. now rewrite beq_bytes_refl in H.
  - destruct (beq_bytes a b) eqn:E; [|reflexivity]. apply beq_bytes_eq in E. contradiction.
Qed.

(* ---------- the invariant (repaired code) ---------- *)

Definition ok_holder (self : bytes) (bi : binfo) (id : bytes) (c : dy) : Prop :=
  id <> [] /\ id <> self /\ allowed bi id = true /\ c = cost_for bi id.

Definition row_owner (p : phase) (id : bytes) : Prop :=
  match p with
  | PBooked id' _ | PEst id' _ _ | PLeaving id' _ => id' = id
  | _ => False
  end.

Record inv (y : sys) : Prop := {
  (* every session that occupies an ID has exactly that entry in s.connections, and was admissible *)
  inv_holder : forall i bi p id c, nth_error (y_sess y) i = Some (bi, p) -> holds p = Some (id, c) ->
    aget (y_conns y) id = Some c /\ ok_holder (y_self y) bi id c;
  (* no two sessions occupy the same ID *)
  inv_unique : forall i j bi bi' p p' id c c',
    nth_error (y_sess y) i = Some (bi, p) -> nth_error (y_sess y) j = Some (bi', p') ->
    holds p = Some (id, c) -> holds p' = Some (id, c') -> i = j;
  (* every entry of s.connections is occupied by a live session *)
  inv_held : forall id c, aget (y_conns y) id = Some c ->
    exists i bi p, nth_error (y_sess y) i = Some (bi, p) /\ holds p = Some (id, c);
  (* a remotely-established session heard the peer declare the same cost *)
  inv_decl : forall i bi id c rc, nth_error (y_sess y) i = Some (bi, PEst id c (Some rc)) -> dy_eqb rc c = true;
  (* every edge of the node's own cost row belongs to a session past admission and not yet closed *)
  inv_row : forall id, amem (y_selfrow y) id = true ->
    exists i bi p, nth_error (y_sess y) i = Some (bi, p) /\ row_owner p id;
  (* a session between the two halves of removeConnection has a real ID to remove *)
  inv_leaving : forall i bi id rej, nth_error (y_sess y) i = Some (bi, PLeaving id rej) -> id <> []
}.

Lemma inv_init self : inv (sys_init self).
Proof.
  split; simpl; intros.
  - destruct i; discriminate.
  - destruct i; discriminate.
  - discriminate.
  - destruct i; discriminate.
  - discriminate.
  - destruct i; discriminate.
Qed.

(* --- generic transitions of session i from phase p to phase p' --- *)

Lemma upd_lookup_same y conns row i bi p' e :
  nth_error (y_sess y) i = Some e -> nth_error (y_sess (upd y conns row i bi p')) i = Some (bi, p').
Proof. intro H. simpl. eapply nth_error_set_nth_same; eassumption. Qed.

Lemma upd_lookup_other y conns row i bi p' j : j <> i ->
  nth_error (y_sess (upd y conns row i bi p')) j = nth_error (y_sess y) j.
Proof. intro H. simpl. apply nth_error_set_nth_other. congruence. Qed.

(* T1: the session keeps what it occupies (or occupies nothing before and after); maps unchanged
   except that the own row may change under the row conditions below *)
Lemma inv_relabel y i bi p p' row' :
  nth_error (y_sess y) i = Some (bi, p) -> inv y ->
  holds p' = holds p ->
  (forall id c rc, p' = PEst id c (Some rc) -> dy_eqb rc c = true) ->
  (forall id, amem row' id = true ->
     (amem (y_selfrow y) id = true /\ (row_owner p id -> row_owner p' id)) \/ row_owner p' id) ->
  (forall id, row_owner p id -> amem row' id = true -> row_owner p' id) ->
  (forall id rej, p' = PLeaving id rej -> id <> []) ->
  inv (upd y (y_conns y) row' i bi p').
Proof.
  intros Hi Hinv Hh Hd Hr Hr2 Hl. destruct Hinv as [A B C D F G]. split.
  - intros j bj pj id c Hj Hhold. cbn [upd y_conns y_self].
    destruct (Nat.eq_dec j i) as [->|Hne].
    + erewrite upd_lookup_same in Hj by eassumption. inversion Hj; subst. rewrite Hh in Hhold. eapply A; eassumption.
    + rewrite upd_lookup_other in Hj by assumption. eapply A; eassumption.
  - intros j k bj bk pj pk id c c' Hj Hk H1 H2.
    destruct (Nat.eq_dec j i) as [->|Hj'], (Nat.eq_dec k i) as [->|Hk']; try reflexivity.
    + erewrite upd_lookup_same in Hj by eassumption. inversion Hj; subst. rewrite Hh in H1.
      rewrite upd_lookup_other in Hk by assumption. eapply B; eassumption.
    + erewrite upd_lookup_same in Hk by eassumption. inversion Hk; subst. rewrite Hh in H2.
      rewrite upd_lookup_other in Hj by assumption. eapply B; eassumption.
    + rewrite upd_lookup_other in Hj, Hk by assumption. eapply B; eassumption.
  - intros id c Hc. cbn [upd y_conns] in Hc. destruct (C id c Hc) as (j & bj & pj & Hj & Hhold).
    destruct (Nat.eq_dec j i) as [->|Hne].
    + exists i, bi, p'. split; [eapply upd_lookup_same; eassumption|]. rewrite Hi in Hj. injection Hj as <- <-. now rewrite Hh.
    + exists j, bj, pj. split; [|assumption]. now rewrite upd_lookup_other.
  - intros j bj id c rc Hj. destruct (Nat.eq_dec j i) as [->|Hne].
    + erewrite upd_lookup_same in Hj by eassumption. inversion Hj; subst. eapply Hd; reflexivity.
    + rewrite upd_lookup_other in Hj by assumption. eapply D; eassumption.
  - intros id Hm. cbn [upd y_selfrow] in Hm. destruct (Hr id Hm) as [[Hold Hkeep]|Hnew].
    + destruct (F id Hold) as (j & bj & pj & Hj & Ho).
      destruct (Nat.eq_dec j i) as [->|Hne].
      * exists i, bi, p'. split; [eapply upd_lookup_same; eassumption|]. rewrite Hi in Hj. injection Hj as <- <-.
        apply Hr2; assumption.
      * exists j, bj, pj. split; [|assumption]. now rewrite upd_lookup_other.
    + exists i, bi, p'. split; [eapply upd_lookup_same; eassumption|assumption].
  - intros j bj id rej Hj. destruct (Nat.eq_dec j i) as [->|Hne].
    + erewrite upd_lookup_same in Hj by eassumption. inversion Hj; subst. eapply Hl; reflexivity.
    + rewrite upd_lookup_other in Hj by assumption. eapply G; eassumption.
Qed.

(* T2: the session acquires a free ID *)
Lemma inv_acquire y i bi p p' id c :
  nth_error (y_sess y) i = Some (bi, p) -> inv y ->
  holds p = None -> (forall x, ~ row_owner p x) -> p' = PAdmitted id c ->
  amem (y_conns y) id = false -> ok_holder (y_self y) bi id c ->
  inv (upd y (y_conns y ++ [(id, c)]) (y_selfrow y) i bi p').
Proof.
  intros Hi Hinv Hn Hno Hp Hfree Hok. destruct Hinv as [A B C D F G]. subst p'.
  assert (Hnone : aget (y_conns y) id = None).
  { unfold amem in Hfree. destruct (aget (y_conns y) id); [discriminate|reflexivity]. }
  split.
  - intros j bj pj id' c' Hj Hhold. cbn [upd y_conns y_self].
    destruct (Nat.eq_dec j i) as [->|Hne].
    + erewrite upd_lookup_same in Hj by eassumption. inversion Hj; subst. simpl in Hhold. inversion Hhold; subst.
      split; [now apply aget_app_new|assumption].
    + rewrite upd_lookup_other in Hj by assumption.
      destruct (A _ _ _ _ _ Hj Hhold) as [Hg Hok']. split; [|assumption].
      rewrite aget_app_other; [assumption|].
      apply beq_false_neq. intro; subst. congruence.
  - intros j k bj bk pj pk id' c1 c2 Hj Hk H1 H2.
    destruct (Nat.eq_dec j i) as [->|Hj'], (Nat.eq_dec k i) as [->|Hk']; try reflexivity.
    + exfalso. erewrite upd_lookup_same in Hj by eassumption. inversion Hj; subst. simpl in H1. inversion H1; subst.
      rewrite upd_lookup_other in Hk by assumption. destruct (A _ _ _ _ _ Hk H2). congruence.
    + exfalso. erewrite upd_lookup_same in Hk by eassumption. inversion Hk; subst. simpl in H2. inversion H2; subst.
      rewrite upd_lookup_other in Hj by assumption. destruct (A _ _ _ _ _ Hj H1). congruence.
    + rewrite upd_lookup_other in Hj, Hk by assumption. eapply B; eassumption.
  - intros id' c' Hc. cbn [upd y_conns] in Hc.
    destruct (beq_bytes id' id) eqn:E.
    + apply beq_bytes_eq in E. subst id'. rewrite (aget_app_new _ _ c Hnone) in Hc. inversion Hc; subst.
      exists i, bi, (PAdmitted id c'). split; [eapply upd_lookup_same; eassumption|reflexivity].
    + rewrite aget_app_other in Hc by assumption. destruct (C _ _ Hc) as (j & bj & pj & Hj & Hhold).
      destruct (Nat.eq_dec j i) as [->|Hne].
      * rewrite Hi in Hj. injection Hj as <- <-. congruence.
      * exists j, bj, pj. split; [|assumption]. now rewrite upd_lookup_other.
  - intros j bj id' c' rc Hj. destruct (Nat.eq_dec j i) as [->|Hne].
    + erewrite upd_lookup_same in Hj by eassumption. discriminate.
    + rewrite upd_lookup_other in Hj by assumption. eapply D; eassumption.
  - intros id' Hm. cbn [upd y_selfrow] in Hm. destruct (F id' Hm) as (j & bj & pj & Hj & Ho).
    destruct (Nat.eq_dec j i) as [->|Hne].
    + rewrite Hi in Hj. injection Hj as <- <-. exfalso. eapply Hno; eassumption.
    + exists j, bj, pj. split; [|assumption]. now rewrite upd_lookup_other.
  - intros j bj id' rej Hj. destruct (Nat.eq_dec j i) as [->|Hne].
    + erewrite upd_lookup_same in Hj by eassumption. discriminate.
    + rewrite upd_lookup_other in Hj by assumption. eapply G; eassumption.
Qed.

(* T3: the session releases its ID (first half of removeConnection) *)
Lemma inv_release y i bi p p' id c rej :
  nth_error (y_sess y) i = Some (bi, p) -> inv y ->
  holds p = Some (id, c) -> p' = PLeaving id rej ->
  inv (upd y (rm id (y_conns y)) (y_selfrow y) i bi p').
Proof.
  intros Hi Hinv Hh Hp. subst p'. destruct Hinv as [A B C D F G].
  destruct (A _ _ _ _ _ Hi Hh) as [Hg (Hne0 & _)].
  assert (Hrm : rm id (y_conns y) = adel (y_conns y) id).
  { unfold rm. destruct id; [contradiction|reflexivity]. }
  split.
  - intros j bj pj id' c' Hj Hhold. cbn [upd y_conns y_self]. rewrite Hrm.
    destruct (Nat.eq_dec j i) as [->|Hne].
    + erewrite upd_lookup_same in Hj by eassumption. inversion Hj; subst. discriminate.
    + rewrite upd_lookup_other in Hj by assumption.
      destruct (A _ _ _ _ _ Hj Hhold) as [Hg' Hok']. split; [|assumption].
      rewrite aget_adel_other; [assumption|].
      apply beq_false_neq. intro; subst. apply Hne. eapply B; eassumption.
  - intros j k bj bk pj pk id' c1 c2 Hj Hk H1 H2.
    destruct (Nat.eq_dec j i) as [->|Hj'].
    { erewrite upd_lookup_same in Hj by eassumption. inversion Hj; subst. discriminate. }
    destruct (Nat.eq_dec k i) as [->|Hk'].
    { erewrite upd_lookup_same in Hk by eassumption. inversion Hk; subst. discriminate. }
    rewrite upd_lookup_other in Hj, Hk by assumption. eapply B; eassumption.
  - intros id' c' Hc. cbn [upd y_conns] in Hc. rewrite Hrm in Hc.
    destruct (beq_bytes id' id) eqn:E.
    + apply beq_bytes_eq in E. subst id'. rewrite aget_adel_same in Hc. discriminate.
    + rewrite aget_adel_other in Hc by assumption. destruct (C _ _ Hc) as (j & bj & pj & Hj & Hhold).
      destruct (Nat.eq_dec j i) as [->|Hne].
      * rewrite Hi in Hj. injection Hj as <- <-. rewrite Hh in Hhold. inversion Hhold; subst.
        now rewrite beq_bytes_refl in E.
      * exists j, bj, pj. split; [|assumption]. now rewrite upd_lookup_other.
  - intros j bj id' c' rc Hj. destruct (Nat.eq_dec j i) as [->|Hne].
    + erewrite upd_lookup_same in Hj by eassumption. discriminate.
    + rewrite upd_lookup_other in Hj by assumption. eapply D; eassumption.
  - intros id' Hm. cbn [upd y_selfrow] in Hm. destruct (F id' Hm) as (j & bj & pj & Hj & Ho).
    destruct (Nat.eq_dec j i) as [->|Hne].
    + rewrite Hi in Hj. injection Hj as <- <-. exists i, bi, (PLeaving id rej).
      split; [eapply upd_lookup_same; eassumption|]. simpl.
      destruct p; simpl in Hh, Ho; try discriminate; try contradiction; inversion Hh; subst; reflexivity.
    + exists j, bj, pj. split; [|assumption]. now rewrite upd_lookup_other.
  - intros j bj id' rej' Hj. destruct (Nat.eq_dec j i) as [->|Hne].
    + erewrite upd_lookup_same in Hj by eassumption. inversion Hj; subst. assumption.
    + rewrite upd_lookup_other in Hj by assumption. eapply G; eassumption.
Qed.


Lemma amem_aset_inv {V} (m : list (bytes * V)) k k0 v :
  amem (aset m k0 v) k = true -> amem m k = true \/ k0 = k.
Proof.
  intro H. destruct (beq_bytes k k0) eqn:E.
  - right. apply beq_bytes_eq in E. now subst.
  - left. unfold amem in *. now rewrite aget_aset_other in H.
Qed.

Lemma amem_adel_inv {V} (m : list (bytes * V)) k k0 :
  amem (adel m k0) k = true -> amem m k = true /\ k <> k0.
Proof.
  intro H. destruct (beq_bytes k k0) eqn:E.
  - apply beq_bytes_eq in E. subst. unfold amem in H. now rewrite aget_adel_same in H.
  - split; [|now apply beq_false_neq]. unfold amem in *. now rewrite aget_adel_other in H.
Qed.

Lemma est_check_decl self id c decl ri rc :
  (forall r, decl = Some r -> dy_eqb r c = true) ->
  est_check self id c decl ri = Some (Some rc) -> dy_eqb rc c = true.
Proof.
  intros Hd. unfold est_check.
  destruct (negb (beq_bytes (ru_fwd ri) id)); [discriminate|].
  destruct (beq_bytes (ru_node ri) id).
  - destruct (aget _ self) as [r|].
    + destruct (dy_eqb r c) eqn:E; [|discriminate]. intro H; inversion H; now subst.
    + destruct decl; [discriminate|]. intro H; inversion H.
  - intro H; inversion H; subst. now apply Hd.
Qed.

Ltac relabel_simple :=
  eapply inv_relabel; try eassumption; try reflexivity;
  [ intros; discriminate
  | intros x Hx; left; split; [assumption|simpl; tauto]
  | simpl; tauto
  | intros; discriminate ].

Theorem inv_step y l : inv y -> inv (sys_step repaired y l).
Proof.
  intro Hinv. destruct l as [bi|i m|i|i]; cbn [sys_step].
  - (* LStart *)
    destruct Hinv as [A B C D F G].
    set (p0 := if dy_pos (bi_cost bi) then PInit else PClosed false).
    assert (Hp0 : holds p0 = None /\ (forall x, ~ row_owner p0 x) /\ (forall id c d, p0 <> PEst id c d) /\
                  (forall id r, p0 <> PLeaving id r)).
    { unfold p0. destruct (dy_pos (bi_cost bi)); repeat split; simpl; intros; try tauto; discriminate. }
    destruct Hp0 as (H0 & H1 & H2 & H3).
    split; cbn [y_sess y_conns y_selfrow y_self].
    + intros j bj pj id c Hj Hh. apply nth_error_snoc in Hj as [Hj|[_ Hj]].
      * eapply A; eassumption.
      * inversion Hj; subst. congruence.
    + intros j k bj bk pj pk id c c' Hj Hk Hh1 Hh2.
      apply nth_error_snoc in Hj as [Hj|[_ Hj]]; [|inversion Hj; subst; congruence].
      apply nth_error_snoc in Hk as [Hk|[_ Hk]]; [|inversion Hk; subst; congruence].
      eapply B; eassumption.
    + intros id c Hc. destruct (C _ _ Hc) as (j & bj & pj & Hj & Hh).
      exists j, bj, pj. split; [|assumption]. rewrite nth_error_app1; [assumption|].
      apply nth_error_Some. congruence.
    + intros j bj id c rc Hj. apply nth_error_snoc in Hj as [Hj|[_ Hj]].
      * eapply D; eassumption.
      * inversion Hj. exfalso. eapply H2. symmetry; eassumption.
    + intros id Hm. destruct (F _ Hm) as (j & bj & pj & Hj & Ho).
      exists j, bj, pj. split; [|assumption]. rewrite nth_error_app1; [assumption|].
      apply nth_error_Some. congruence.
    + intros j bj id rej Hj. apply nth_error_snoc in Hj as [Hj|[_ Hj]].
      * eapply G; eassumption.
      * inversion Hj. exfalso. eapply H3. symmetry; eassumption.
  - (* LMsg *)
    destruct (nth_error (y_sess y) i) as [[bi p]|] eqn:Hi; [|assumption].
    destruct p as [|id c|id c|id c decl|id rej|rej]; try assumption.
    + (* PInit *)
      destruct m as [ri| |]; [| |assumption].
      * destruct (admissible repaired (y_self y) bi (y_conns y) (ru_fwd ri)) eqn:Ea.
        -- unfold admissible in Ea. cbn [v_reject_noid repaired andb] in Ea.
           apply andb_true_iff in Ea as [Ea E4]. apply andb_true_iff in Ea as [Ea E3].
           apply andb_true_iff in Ea as [E1 E2].
           eapply inv_acquire; try eassumption; try reflexivity.
           ++ simpl. tauto.
           ++ now apply negb_true_iff in E4.
           ++ repeat split; try assumption.
              ** intro Hn. rewrite Hn in E1. discriminate.
              ** apply negb_true_iff in E2. now apply beq_false_neq.
        -- relabel_simple.
      * relabel_simple.
    + (* PEst *)
      destruct m as [ri| |]; [| |assumption].
      * destruct (est_check (y_self y) id c decl ri) as [decl'|] eqn:Ec.
        -- eapply inv_relabel; try eassumption; try reflexivity.
           ++ intros id0 c0 rc Hp. inversion Hp; subst.
              eapply est_check_decl; [|exact Ec].
              intros r Hr. subst decl. destruct Hinv as [_ _ _ D _ _]. eapply D; eassumption.
           ++ intros x Hx. left. split; [assumption|]. simpl. tauto.
           ++ simpl. tauto.
           ++ intros; discriminate.
        -- eapply inv_release; try eassumption; reflexivity.
      * eapply inv_release; try eassumption; reflexivity.
  - (* LFinish *)
    destruct (nth_error (y_sess y) i) as [[bi p]|] eqn:Hi; [|assumption].
    destruct p as [|id c|id c|id c decl|id rej|rej]; try assumption.
    + (* PAdmitted -> PBooked, own row set *)
      eapply inv_relabel; try eassumption; try reflexivity.
      * intros; discriminate.
      * intros x Hx. apply amem_aset_inv in Hx as [Hx|Hx].
        -- left. split; [assumption|]. simpl. tauto.
        -- right. simpl. assumption.
      * simpl. tauto.
      * intros; discriminate.
    + (* PBooked -> PEst *)
      eapply inv_relabel; try eassumption; try reflexivity.
      * intros id0 c0 rc Hp. inversion Hp.
      * intros x Hx. left. split; [assumption|]. simpl. tauto.
      * simpl. tauto.
      * intros; discriminate.
    + (* PLeaving -> PClosed, own row edge deleted *)
      assert (Hne : id <> []) by (destruct Hinv as [_ _ _ _ _ G]; eapply G; eassumption).
      assert (Hrm : rm id (y_selfrow y) = adel (y_selfrow y) id)
        by (unfold rm; destruct id; [contradiction|reflexivity]).
      rewrite Hrm.
      eapply inv_relabel; try eassumption; try reflexivity.
      * intros; discriminate.
      * intros x Hx. apply amem_adel_inv in Hx as [Hx Hnx]. left. split; [assumption|].
        simpl. intros Hy. subst. contradiction.
      * simpl. intros x Hy Hx. subst x. unfold amem in Hx. now rewrite aget_adel_same in Hx.
      * intros; discriminate.
  - (* LHangup *)
    destruct (nth_error (y_sess y) i) as [[bi p]|] eqn:Hi; [|assumption].
    destruct p as [|id c|id c|id c decl|id rej|rej]; try assumption.
    + relabel_simple.
    + eapply inv_release; try eassumption; reflexivity.
    + cbn [v_remove_late repaired]. eapply inv_release; try eassumption; reflexivity.
    + eapply inv_release; try eassumption; reflexivity.
Qed.

Lemma inv_run ls : forall y, inv y -> inv (sys_run repaired y ls).
Proof.
  induction ls as [|l ls IH]; intros y H; [exact H|]. unfold sys_run. simpl. apply IH. now apply inv_step.
Qed.

Theorem reachable_inv self y : reachable repaired self y -> inv y.
Proof. intros [ls ->]. apply inv_run, inv_init. Qed.

Lemma run_self ls : forall y, y_self (sys_run repaired y ls) = y_self y.
Proof.
  induction ls as [|l ls IH]; intro y; [reflexivity|]. unfold sys_run; simpl. fold (sys_run repaired (sys_step repaired y l) ls).
  rewrite IH. destruct l as [bi|i m|i|i]; cbn [sys_step]; try reflexivity;
  repeat match goal with
  | |- context [match ?x with _ => _ end] => destruct x
  end; reflexivity.
Qed.

(* ---------- the property theorems ---------- *)

(* In every reachable state, for EVERY interleaving of any number of sessions: each entry of
   s.connections has a non-empty ID, different from the local one, on the allow-list of the
   backend it came through (when that has one), at that backend's cost for the ID, and is
   occupied by exactly one live session; if the peer has declared a cost, it is the same. *)
Theorem established_only_if_admissible self y id c :
  reachable repaired self y -> aget (y_conns y) id = Some c ->
  id <> [] /\ id <> self /\
  exists i bi p, nth_error (y_sess y) i = Some (bi, p) /\ holds p = Some (id, c) /\
                 allowed bi id = true /\ c = cost_for bi id /\
                 (forall rc, p = PEst id c (Some rc) -> dy_eqb rc c = true) /\
                 (forall j bj pj cj, nth_error (y_sess y) j = Some (bj, pj) -> holds pj = Some (id, cj) -> j = i).
Proof.
  intros Hr Hc. pose proof (reachable_inv _ _ Hr) as [A B C D F G].
  assert (Hs : y_self y = self) by (destruct Hr as [ls ->]; apply run_self).
  destruct (C _ _ Hc) as (i & bi & p & Hi & Hh).
  destruct (A _ _ _ _ _ Hi Hh) as [_ (H1 & H2 & H3 & H4)]. rewrite Hs in H2.
  repeat split; try assumption.
  exists i, bi, p. repeat split; try assumption.
  - intros rc Hp. subst p. eapply D; eassumption.
  - intros j bj pj cj Hj Hhj. eapply B; eassumption.
Qed.

Theorem at_most_one_session_per_id self y i j bi bj p q id c c' :
  reachable repaired self y ->
  nth_error (y_sess y) i = Some (bi, p) -> nth_error (y_sess y) j = Some (bj, q) ->
  holds p = Some (id, c) -> holds q = Some (id, c') -> i = j.
Proof. intros Hr. destruct (reachable_inv _ _ Hr) as [_ B _ _ _ _]. apply B. Qed.

(* a rejected handshake changes nothing but the session's own fate *)
Theorem rejected_leaves_no_route y i bi ri :
  nth_error (y_sess y) i = Some (bi, PInit) ->
  admissible repaired (y_self y) bi (y_conns y) (ru_fwd ri) = false ->
  let y' := sys_step repaired y (LMsg i (ARoute ri)) in
  y_conns y' = y_conns y /\ y_selfrow y' = y_selfrow y /\
  nth_error (y_sess y') i = Some (bi, PClosed true) /\
  (forall j, j <> i -> nth_error (y_sess y') j = nth_error (y_sess y) j).
Proof.
  intros Hi Ha. cbn [sys_step]. rewrite Hi, Ha. cbn [upd y_conns y_selfrow y_sess].
  repeat split.
  - eapply nth_error_set_nth_same; eassumption.
  - intros j Hj. apply nth_error_set_nth_other. congruence.
Qed.

(* ... and which handshakes are rejected: exactly the inadmissible ones *)
Theorem admissible_spec self bi conns id :
  admissible repaired self bi conns id = true <->
  id <> [] /\ id <> self /\ allowed bi id = true /\ aget conns id = None.
Proof.
  unfold admissible. cbn [v_reject_noid repaired andb]. split.
  - intro H. apply andb_true_iff in H as [H E4]. apply andb_true_iff in H as [H E3].
    apply andb_true_iff in H as [E1 E2]. repeat split.
    + intro Hn; subst; discriminate.
    + apply negb_true_iff in E2. now apply beq_false_neq.
    + assumption.
    + apply negb_true_iff in E4. unfold amem in E4. destruct (aget conns id); [discriminate|reflexivity].
  - intros (H1 & H2 & H3 & H4). unfold amem. rewrite H4, H3.
    apply beq_false_neq in H2. rewrite H2. destruct id; [contradiction|reflexivity].
Qed.

(* in a quiescent reachable state every edge of the node's own cost row — hence the first hop
   of every route — is a live, established, admissible connection *)
Theorem no_route_without_connection self y id :
  reachable repaired self y -> quiescent y = true -> amem (y_selfrow y) id = true ->
  exists c i bi decl, aget (y_conns y) id = Some c /\ nth_error (y_sess y) i = Some (bi, PEst id c decl).
Proof.
  intros Hr Hq Hm. destruct (reachable_inv _ _ Hr) as [A _ _ _ F _].
  destruct (F _ Hm) as (i & bi & p & Hi & Ho).
  unfold quiescent in Hq. rewrite forallb_forall in Hq.
  assert (Hin : In (bi, p) (y_sess y)) by (eapply nth_error_In; eassumption).
  specialize (Hq _ Hin). cbn [snd] in Hq.
  destruct p as [|id' c|id' c|id' c decl|id' rej|rej]; simpl in Ho, Hq; try contradiction; try discriminate.
  subst id'. exists c, i, bi, decl. split; [|assumption].
  destruct (A _ _ _ _ _ Hi eq_refl) as [Hg _]. exact Hg.
Qed.

(* a peer that speaks under another ID, stops listing the local node after having listed it, or
   declares another cost, loses its connection in that very step; the own-row edge goes with
   the session's next step *)
Definition misbehaves (self id : bytes) (c : dy) (decl : option dy) (ri : rupd) : Prop :=
  ru_fwd ri <> id \/
  (ru_fwd ri = id /\ ru_node ri = id /\
   match aget (match ru_conns ri with Some m => m | None => [] end) self with
   | None => decl <> None
   | Some rc => dy_eqb rc c = false
   end).

Lemma misbehaves_check self id c decl ri : misbehaves self id c decl ri -> est_check self id c decl ri = None.
Proof.
  unfold misbehaves, est_check. intros [H|(H1 & H2 & H3)].
  - apply beq_false_neq in H. now rewrite H.
  - rewrite H1, H2, !beq_bytes_refl. cbn [negb].
    destruct (aget _ self) as [rc|].
    + now rewrite H3.
    + destruct decl; [reflexivity|contradiction].
Qed.

Theorem misbehaving_peer_removed self y i bi id c decl ri :
  reachable repaired self y ->
  nth_error (y_sess y) i = Some (bi, PEst id c decl) ->
  misbehaves (y_self y) id c decl ri ->
  let y1 := sys_step repaired y (LMsg i (ARoute ri)) in
  let y2 := sys_step repaired y1 (LFinish i) in
  aget (y_conns y1) id = None /\ nth_error (y_sess y1) i = Some (bi, PLeaving id true) /\
  aget (y_selfrow y2) id = None /\ nth_error (y_sess y2) i = Some (bi, PClosed true) /\ y_conns y2 = y_conns y1.
Proof.
  intros Hr Hi Hm.
  destruct (reachable_inv _ _ Hr) as [A _ _ _ _ _].
  destruct (A _ _ _ _ _ Hi eq_refl) as [_ (Hne & _)].
  assert (Hrm : forall m, rm id m = adel m id) by (intro m; unfold rm; destruct id; [contradiction|reflexivity]).
  cbn zeta. cbn [sys_step]. rewrite Hi, (misbehaves_check _ _ _ _ _ Hm).
  set (y1 := upd y (rm id (y_conns y)) (y_selfrow y) i bi (PLeaving id true)).
  assert (H1 : nth_error (y_sess y1) i = Some (bi, PLeaving id true))
    by (eapply nth_error_set_nth_same; eassumption).
  cbn [sys_step]. rewrite H1.
  split; [|split; [|split; [|split]]].
  - unfold y1. cbn [upd y_conns]. rewrite Hrm. apply aget_adel_same.
  - first [reflexivity | exact H1].
  - cbn [upd y_selfrow]. rewrite Hrm. apply aget_adel_same.
  - eapply nth_error_set_nth_same; eassumption.
  - reflexivity.
Qed.

(* a connection is forgotten as soon as its session ends, whatever the phase it is in *)
Theorem forgotten_when_session_ends self y i bi p id c :
  reachable repaired self y ->
  nth_error (y_sess y) i = Some (bi, p) -> holds p = Some (id, c) ->
  let y1 := sys_step repaired y (LHangup i) in
  let y2 := sys_step repaired y1 (LFinish i) in
  aget (y_conns y1) id = None /\ aget (y_conns y2) id = None /\ aget (y_selfrow y2) id = None /\
  nth_error (y_sess y2) i = Some (bi, PClosed false).
Proof.
  intros Hr Hi Hh.
  destruct (reachable_inv _ _ Hr) as [A _ _ _ _ _].
  destruct (A _ _ _ _ _ Hi Hh) as [_ (Hne & _)].
  assert (Hrm : forall m, rm id m = adel m id) by (intro m; unfold rm; destruct id; [contradiction|reflexivity]).
  assert (G : sys_step repaired y (LHangup i) = upd y (rm id (y_conns y)) (y_selfrow y) i bi (PLeaving id false)).
  { cbn [sys_step]. rewrite Hi.
    destruct p; simpl in Hh; try discriminate; inversion Hh; subst; reflexivity. }
  cbn zeta. rewrite G.
  set (y1 := upd y (rm id (y_conns y)) (y_selfrow y) i bi (PLeaving id false)).
  assert (H1 : nth_error (y_sess y1) i = Some (bi, PLeaving id false))
    by (eapply nth_error_set_nth_same; eassumption).
  cbn [sys_step]. rewrite H1.
  split; [|split; [|split]].
  - unfold y1. cbn [upd y_conns]. rewrite Hrm. apply aget_adel_same.
  - unfold y1. cbn [upd y_conns]. rewrite Hrm. apply aget_adel_same.
  - cbn [upd y_selfrow]. rewrite Hrm. apply aget_adel_same.
  - eapply nth_error_set_nth_same; eassumption.
Qed.

(* no reachable state lists a connection whose session has ended: every entry of s.connections
   belongs to a session that has not ended, and an ended session owns none *)
Theorem no_connection_of_an_ended_session self y :
  reachable repaired self y ->
  (forall id c, aget (y_conns y) id = Some c ->
     exists i bi p, nth_error (y_sess y) i = Some (bi, p) /\ holds p = Some (id, c) /\ ended p = false) /\
  (forall i bi p, nth_error (y_sess y) i = Some (bi, p) -> ended p = true -> holds p = None).
Proof.
  intro Hr. destruct (reachable_inv _ _ Hr) as [_ _ C _ _ _]. split.
  - intros id c Hc. destruct (C _ _ Hc) as (i & bi & p & Hi & Hh).
    exists i, bi, p. repeat split; try assumption. destruct p; simpl in *; try discriminate; reflexivity.
  - intros i bi p _ He. destruct p; simpl in *; try discriminate; reflexivity.
Qed.

(* the step "session ended" removes the entry at once, from every phase after admission *)
Theorem ending_removes_in_one_step self y i bi p id c :
  reachable repaired self y -> nth_error (y_sess y) i = Some (bi, p) -> holds p = Some (id, c) ->
  let y1 := sys_step repaired y (LHangup i) in
  aget (y_conns y1) id = None /\ exists q, nth_error (y_sess y1) i = Some (bi, q) /\ ended q = true.
Proof.
  intros Hr Hi Hh.
  destruct (forgotten_when_session_ends _ _ _ _ _ _ _ Hr Hi Hh) as (H1 & _).
  split; [exact H1|].
  cbn [sys_step]. rewrite Hi.
  destruct p; simpl in Hh; try discriminate; cbn [v_remove_late repaired];
    eexists; (split; [eapply nth_error_set_nth_same; eassumption|reflexivity]).
Qed.

(* ---------- the pinned code ---------- *)

Definition bi1 : binfo := {| bi_cost := Dy false 1 0; bi_nodecost := []; bi_allowed := None |}.
Definition no_id_update : rupd := ru_zero.            (* what {} or null decode to: ForwardingNode "" *)

(* pinned: a handshake without node ID is admitted as connection "", and when its session ends
   the entry (and its own-row edge) stays for ever: removeConnection("") does nothing *)
Theorem pinned_admits_empty_id_for_ever :
  let y := sys_run pinned (sys_init (str "victim"%string))
             [LStart bi1; LMsg 0 (ARoute no_id_update); LFinish 0; LFinish 0; LHangup 0; LFinish 0] in
  aget (y_conns y) [] = Some (Dy false 1 0) /\ aget (y_selfrow y) [] = Some (Dy false 1 0) /\
  nth_error (y_sess y) 0 = Some (bi1, PClosed false).
Proof. vm_compute. repeat split. Qed.

(* ... which the repaired code rejects *)
Example repaired_rejects_empty_id :
  let y := sys_run repaired (sys_init (str "victim"%string)) [LStart bi1; LMsg 0 (ARoute no_id_update)] in
  y_conns y = [] /\ nth_error (y_sess y) 0 = Some (bi1, PClosed true).
Proof. vm_compute. split; reflexivity. Qed.

Definition alpha_update : rupd :=
  {| ru_node := str "alpha"%string; ru_uid := []; ru_epoch := 1; ru_seq := 1; ru_conns := None;
     ru_fwd := str "alpha"%string; ru_dup := 0 |}.

(* pinned: a session whose context ends between the own-row bookkeeping and "established" returns
   without removeConnection: closed session, connection and route left behind *)
Theorem pinned_forgets_to_forget :
  let y := sys_run pinned (sys_init (str "victim"%string))
             [LStart bi1; LMsg 0 (ARoute alpha_update); LFinish 0; LHangup 0; LFinish 0] in
  aget (y_conns y) (str "alpha"%string) = Some (Dy false 1 0) /\
  aget (y_selfrow y) (str "alpha"%string) = Some (Dy false 1 0) /\
  nth_error (y_sess y) 0 = Some (bi1, PClosed false).
Proof. vm_compute. repeat split. Qed.

Example repaired_forgets :
  let y := sys_run repaired (sys_init (str "victim"%string))
             [LStart bi1; LMsg 0 (ARoute alpha_update); LFinish 0; LHangup 0; LFinish 0] in
  y_conns y = [] /\ y_selfrow y = [] /\ nth_error (y_sess y) 0 = Some (bi1, PClosed false).
Proof. vm_compute. repeat split. Qed.

(* non-vacuity: two sessions race for the same ID, a third uses another; one of the two wins,
   the loser is rejected, the state is reachable and quiescent with two live connections *)
Example race_example :
  let y := sys_run repaired (sys_init (str "victim"%string))
             [LStart bi1; LStart bi1; LStart bi1;
              LMsg 1 (ARoute alpha_update); LMsg 0 (ARoute alpha_update);
              LMsg 2 (ARoute {| ru_node := []; ru_uid := []; ru_epoch := 0; ru_seq := 0; ru_conns := None;
                                ru_fwd := str "beta"%string; ru_dup := 0 |});
              LFinish 2; LFinish 1; LFinish 1; LFinish 2] in
  map fst (y_conns y) = [str "alpha"%string; str "beta"%string] /\ quiescent y = true /\
  nth_error (y_sess y) 0 = Some (bi1, PClosed true).
Proof. vm_compute. repeat split. Qed.

(* ---------- the micro-steps of one session compose to Model/Proto.v's step ---------- *)

Definition is_some {A} (o : option A) : bool := match o with Some _ => true | None => false end.

Definition sys_of (n : node) (bi : binfo) (p : phase) : sys :=
  {| y_self := n_id n; y_conns := n_conns n; y_selfrow := n_selfrow n; y_sess := [(bi, p)] |}.

(* a handshake datagram on a fresh session: admission step + the two bookkeeping steps give the
   same connections, own row and session fate as proto_step *)
Theorem admission_refines_proto_step E n s body j ri :
  s_est s = false -> tok E body = Some j -> decode_routing_update j = JOk ri ->
  let y' := sys_run repaired (sys_of n (s_bi s) PInit) [LMsg 0 (ARoute ri); LFinish 0; LFinish 0] in
  match proto_step E (n, s) (1 :: body) with
  | Cont (n', s') _ =>
    y_conns y' = n_conns n' /\ y_selfrow y' = n_selfrow n' /\
    y_sess y' = [(s_bi s, PEst (s_id s') (s_cost s') None)] /\ s_est s' = true /\ s_rest s' = false
  | Stop n' rej => y_conns y' = n_conns n' /\ y_selfrow y' = n_selfrow n' /\ y_sess y' = [(s_bi s, PClosed rej)]
  | Panic _ => False
  end.
Proof.
  intros He Hj Hd. unfold proto_step, proto_step_gen. rewrite He, Hj, Hd. cbn [N.eqb Pos.eqb].
  unfold sys_run, sys_of. cbn [fold_left sys_step y_sess nth_error y_self y_conns].
  destruct (admissible repaired (n_id n) (s_bi s) (n_conns n) (ru_fwd ri)) eqn:Ea.
  - cbn [upd y_sess set_nth nth_error y_conns y_selfrow y_self sys_step].
    unfold establish.
    destruct (add_hash_links E (set_conns n (n_conns n ++ [(ru_fwd ri, cost_for (s_bi s) (ru_fwd ri))])
                 (aset (n_selfrow n) (ru_fwd ri) (cost_for (s_bi s) (ru_fwd ri)))) (ru_fwd ri))
      as (A & B & _).
    rewrite A, B. cbn [set_conns n_conns n_selfrow s_id s_cost s_est s_rest]. repeat split.
  - cbn [upd y_sess set_nth nth_error y_conns y_selfrow y_self sys_step]. repeat split.
Qed.

(* a routing update on an established session: est_check decides exactly as step_route_est *)
Theorem est_check_refines_step_route_est E n s ri decl :
  s_rest s = is_some decl ->
  match step_route_est E n s ri, est_check (n_id n) (s_id s) (s_cost s) decl ri with
  | Stop n' rej, None => n' = remove_conn n (s_id s) /\ rej = true
  | Cont (n', s') _, Some decl' =>
    n_conns n' = n_conns n /\ n_selfrow n' = n_selfrow n /\ s_id s' = s_id s /\ s_cost s' = s_cost s /\
    s_rest s' = is_some decl'
  | _, _ => False
  end.
Proof.
  intro Hr. unfold step_route_est, est_check.
  destruct (negb (beq_bytes (ru_fwd ri) (s_id s))); [split; reflexivity|].
  destruct (beq_bytes (ru_node ri) (s_id s)).
  - destruct (aget _ (n_id n)) as [rc|].
    + destruct (dy_eqb rc (s_cost s)); cbn [negb]; [|split; reflexivity].
      pose proof (handle_ru_links E n ri) as (A & B & _). destruct (handle_ru E n ri) as [n' evs].
      cbn [fst] in A, B. repeat split; assumption.
    + rewrite Hr. destruct decl; cbn [is_some]; [split; reflexivity|].
      repeat split; assumption.
  - pose proof (handle_ru_links E n ri) as (A & B & _). destruct (handle_ru E n ri) as [n' evs].
    cbn [fst] in A, B. repeat split; assumption.
Qed.

(* ---------- two running nodes claim the same ID ---------- *)

(* what a node with start epoch e says about itself: its own ID and epoch, positive costs, and
   as SuspectedDuplicate either nothing or an epoch LATER than its own (handleRoutingUpdate only
   ever suspects an update whose UpdateEpoch is greater than the local epoch) *)
Definition says_about_itself (id : bytes) (e : N) (ri : rupd) : Prop :=
  ru_node ri = id /\ ru_epoch ri = e /\ (ru_dup ri = 0 \/ e < ru_dup ri) /\ nonpositive_cost ri = false.

(* the earlier node never shuts down on what the later one says, and answers with a notice
   carrying the later node's epoch ... *)
Theorem earlier_duplicate_keeps_running E n eb ri :
  n_id n <> [] -> 0 < n_epoch n -> n_epoch n < eb -> n_down n = false ->
  says_about_itself (n_id n) eb ri ->
  n_down (fst (handle_ru E n ri)) = false /\ snd (handle_ru E n ri) = [ENotify eb].
Proof.
  intros Hid H0 Hlt Hd (H1 & H2 & H3 & H4). unfold handle_ru.
  rewrite H1, H4, beq_bytes_refl, H2.
  assert (isnil (n_id n) = false) as -> by (destruct (n_id n); [contradiction|reflexivity]).
  assert (eb =? n_epoch n = false) as -> by (apply N.eqb_neq; lia).
  assert (ru_dup ri =? n_epoch n = false) as -> by (apply N.eqb_neq; lia).
  assert (n_epoch n <? eb = true) as -> by (apply N.ltb_lt; lia).
  split; [exact Hd|reflexivity].
Qed.

(* ... on which the later node shuts itself down *)
Theorem later_duplicate_shuts_down E n ea ri :
  n_id n <> [] -> ea <> n_epoch n ->
  ru_node ri = n_id n -> ru_epoch ri = ea -> ru_dup ri = n_epoch n -> nonpositive_cost ri = false ->
  n_down (fst (handle_ru E n ri)) = true.
Proof.
  intros Hid Hne H1 H2 H3 H4. unfold handle_ru.
  rewrite H1, H4, beq_bytes_refl, H2, H3, N.eqb_refl.
  assert (isnil (n_id n) = false) as -> by (destruct (n_id n); [contradiction|reflexivity]).
  assert (ea =? n_epoch n = false) as -> by (now apply N.eqb_neq).
  reflexivity.
Qed.

(* ---------- check and insert in two critical sections: refuted ---------- *)

Theorem split_admission_refuted :
  let id := str "twin"%string in
  let st := split_run (str "victim"%string) bi1 ([], [SInit; SInit]) [SCheck 0 id; SCheck 1 id; SInsert 0; SInsert 1] in
  snd st = [SHolding id (Dy false 1 0); SHolding id (Dy false 1 0)] /\ List.length (fst st) = 1%nat.
Proof. vm_compute. split; reflexivity. Qed.

(* with the test and the insertion in one step (the order the code's single critical section
   allows) the second session is rejected *)
Example split_admission_serialized :
  let id := str "twin"%string in
  snd (split_run (str "victim"%string) bi1 ([], [SInit; SInit]) [SCheck 0 id; SInsert 0; SCheck 1 id; SInsert 1])
  = [SHolding id (Dy false 1 0); SRejected].
Proof. vm_compute. reflexivity. Qed.
