(* Base/Hex.v — byte strings as [list N]; hex literals used by the correspondence case files.
   The harness prints every byte string as a Coq [string] of hex digits (one lexer token, fast to
   parse) and the model side turns it back into a list of bytes with [hx]. *)
From Coq Require Import String Ascii.
From Coq Require Export List NArith Bool.
Export ListNotations.
Open Scope N_scope.

Definition byte := N.
Definition bytes := list N.

Definition hexval (c : ascii) : N :=
  let n := N_of_ascii c in
  if (48 <=? n) && (n <=? 57) then n - 48
  else if (97 <=? n) && (n <=? 102) then n - 87
  else if (65 <=? n) && (n <=? 70) then n - 55
  else 0.

Fixpoint hx (s : string) : bytes :=
  match s with
  | String a (String b r) => (16 * hexval a + hexval b) :: hx r
  | _ => []
  end.

(* ASCII text of a Coq string, as bytes (used for literals such as "unreach"). *)
Fixpoint str (s : string) : bytes :=
  match s with
  | EmptyString => []
  | String a r => N_of_ascii a :: str r
  end.

Definition bytes_ok (l : bytes) : bool := forallb (fun b => b <? 256) l.

Fixpoint beq_bytes (a b : bytes) : bool :=
  match a, b with
  | [], [] => true
  | x :: a', y :: b' => (x =? y) && beq_bytes a' b'
  | _, _ => false
  end.

Lemma beq_bytes_eq a b : beq_bytes a b = true <-> a = b.
Proof.
  revert b; induction a as [|x a IH]; intros [|y b]; simpl; split; intro H;
    try reflexivity; try discriminate.
  - apply andb_true_iff in H as [H1 H2]. apply N.eqb_eq in H1. apply IH in H2. now subst.
  - inversion H; subst. rewrite N.eqb_refl. simpl. now apply IH.
Qed.

Lemma beq_bytes_refl a : beq_bytes a a = true.
Proof. now apply beq_bytes_eq. Qed.

(* indices of the elements of a list that fail a boolean test: what every cases file prints *)
Fixpoint failing_from {A} (i : nat) (f : A -> bool) (l : list A) : list nat :=
  match l with
  | [] => []
  | x :: r => if f x then failing_from (S i) f r else i :: failing_from (S i) f r
  end.
Definition failing {A} (f : A -> bool) (l : list A) : list nat := failing_from 0 f l.
