(* Base/Perms.v — all orders of a list, as a computable list (used by the linearizability checks:
   "the observation is what the model yields for SOME order of the concurrent batch"). *)
From Coq Require Import List Permutation.
Import ListNotations.

Fixpoint insert_all {A} (x : A) (l : list A) : list (list A) :=
  match l with
  | [] => [[x]]
  | y :: r => (x :: l) :: map (cons y) (insert_all x r)
  end.
Fixpoint perms {A} (l : list A) : list (list A) :=
  match l with [] => [[]] | x :: r => flat_map (insert_all x) (perms r) end.

Lemma insert_all_In {A} (x : A) l l' : In l' (insert_all x l) ->
  exists l1 l2, l = l1 ++ l2 /\ l' = l1 ++ x :: l2.
Proof.
  revert l'. induction l as [|y r IH]; intros l' H; simpl in H.
  - destruct H as [<-|[]]. exists [], []. auto.
  - destruct H as [<-|H]; [exists [], (y :: r); auto|].
    apply in_map_iff in H. destruct H as (l0 & <- & H). destruct (IH _ H) as (l1 & l2 & -> & ->).
    exists (y :: l1), l2. auto.
Qed.

Lemma insert_all_complete {A} (x : A) l1 l2 : In (l1 ++ x :: l2) (insert_all x (l1 ++ l2)).
Proof.
  induction l1 as [|y r IH]; simpl.
  - destruct l2; simpl; auto.
  - right. apply in_map. exact IH.
Qed.

Lemma perms_complete {A} (l l' : list A) : Permutation l l' -> In l' (perms l).
Proof.
  intros P. apply Permutation_sym in P. revert l' P.
  induction l as [|x r IH]; intros l' P.
  - apply Permutation_sym, Permutation_nil in P. subst. now left.
  - assert (In x l') as Ix by (eapply Permutation_in; [apply Permutation_sym; exact P|now left]).
    apply in_split in Ix. destruct Ix as (l1 & l2 & ->).
    simpl. apply in_flat_map. exists (l1 ++ l2). split.
    + apply IH. apply Permutation_sym in P. apply Permutation_cons_app_inv in P. now apply Permutation_sym.
    + apply insert_all_complete.
Qed.

Lemma perms_sound {A} (l l' : list A) : In l' (perms l) -> Permutation l l'.
Proof.
  revert l'. induction l as [|x r IH]; intros l' H; simpl in H.
  - destruct H as [<-|[]]. constructor.
  - apply in_flat_map in H. destruct H as (p & Hp & Hi).
    destruct (insert_all_In _ _ _ Hi) as (l1 & l2 & -> & ->).
    apply Permutation_cons_app. now apply IH.
Qed.
