(* Base/AMap.v — finite maps with N keys as association lists kept sorted by key, so that two
   maps with the same content are the same list (the harness prints observed Go maps sorted). *)
From Coq Require Import ZArith Lia ZifyN ZifyBool.
From Receptor Require Export Base.Hex.
Open Scope N_scope.

Section AMap.
Context {V : Type}.
Definition amap := list (N * V).

Fixpoint aget (k : N) (m : amap) : option V :=
  match m with
  | [] => None
  | (k', v) :: r => if k' =? k then Some v else aget k r
  end.

Fixpoint aset (k : N) (v : V) (m : amap) : amap :=
  match m with
  | [] => [(k, v)]
  | (k', v') :: r =>
    if k <? k' then (k, v) :: m
    else if k =? k' then (k, v) :: r
    else (k', v') :: aset k v r
  end.

Fixpoint adel (k : N) (m : amap) : amap :=
  match m with
  | [] => []
  | (k', v') :: r => if k' =? k then adel k r else (k', v') :: adel k r
  end.

Definition akeys (m : amap) : list N := map fst m.
Definition amem (k : N) (m : amap) : bool := match aget k m with Some _ => true | None => false end.

Lemma aget_aset_same k v m : aget k (aset k v m) = Some v.
Proof.
  induction m as [|[k' v'] r IH]; simpl.
  - now rewrite N.eqb_refl.
  - destruct (k <? k') eqn:E1; simpl; [now rewrite N.eqb_refl|].
    destruct (k =? k') eqn:E2; simpl; [now rewrite N.eqb_refl|].
    rewrite N.eqb_sym, E2. exact IH.
Qed.

Lemma aget_aset_other k k2 v m : k2 <> k -> aget k2 (aset k v m) = aget k2 m.
Proof.
  intro Hne. induction m as [|[k' v'] r IH]; simpl.
  - destruct (k =? k2) eqn:E; [apply N.eqb_eq in E; congruence|reflexivity].
  - destruct (k <? k') eqn:E1; simpl.
    + destruct (k =? k2) eqn:E; [apply N.eqb_eq in E; congruence|reflexivity].
    + destruct (k =? k') eqn:E2; simpl.
      * apply N.eqb_eq in E2; subst k'.
        destruct (k =? k2) eqn:E; [apply N.eqb_eq in E; congruence|reflexivity].
      * destruct (k' =? k2); [reflexivity|exact IH].
Qed.

Lemma aget_adel_same k m : aget k (adel k m) = None.
Proof.
  induction m as [|[k' v'] r IH]; simpl; [reflexivity|].
  destruct (k' =? k) eqn:E; [exact IH|]. simpl. now rewrite E.
Qed.

Lemma aget_adel_other k k2 m : k2 <> k -> aget k2 (adel k m) = aget k2 m.
Proof.
  intro Hne. induction m as [|[k' v'] r IH]; simpl; [reflexivity|].
  destruct (k' =? k) eqn:E.
  - apply N.eqb_eq in E; subst k'.
    destruct (k =? k2) eqn:E2; [apply N.eqb_eq in E2; congruence|exact IH].
  - simpl. destruct (k' =? k2); [reflexivity|exact IH].
Qed.
End AMap.
Arguments amap V : clear implicits.

Fixpoint mem_N (x : N) (l : list N) : bool :=
  match l with [] => false | y :: r => (x =? y) || mem_N x r end.

Lemma mem_N_In x l : mem_N x l = true <-> In x l.
Proof.
  induction l as [|y r IH]; simpl; [split; [discriminate|tauto]|].
  rewrite orb_true_iff, IH, N.eqb_eq. split; intros [H|H]; auto.
Qed.

(* sorted insertion into a set of N (no duplicates) *)
Fixpoint sadd (x : N) (l : list N) : list N :=
  match l with
  | [] => [x]
  | y :: r => if x <? y then x :: l else if x =? y then l else y :: sadd x r
  end.

Lemma sadd_In x y l : In y (sadd x l) <-> y = x \/ In y l.
Proof.
  induction l as [|z r IH]; simpl; [intuition|].
  destruct (x <? z); simpl; [intuition|].
  destruct (x =? z) eqn:E; simpl.
  - apply N.eqb_eq in E; subst. intuition.
  - rewrite IH. intuition.
Qed.
