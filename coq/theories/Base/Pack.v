(* Base/Pack.v — dense literals for long byte strings in generated case files: 7 bytes per
   primitive 63-bit integer (one term node instead of ~150).  Only the correspondence case files
   import this; no model, proof or property file depends on primitive integers. *)
From Coq Require Import ZArith Uint63.
From Receptor Require Import Base.Hex.
Open Scope N_scope.

Definition b2n (i : int) : N := Z.to_N (Uint63.to_Z_rec 8 i).
Definition word_bytes (w : int) : list N :=
  [b2n ((w >> 48) land 255); b2n ((w >> 40) land 255); b2n ((w >> 32) land 255);
   b2n ((w >> 24) land 255); b2n ((w >> 16) land 255); b2n ((w >> 8) land 255);
   b2n (w land 255)]%uint63.
(* [pk n ws]: the first n bytes of the big-endian concatenation of the 7-byte words *)
Definition pk (n : N) (ws : list int) : bytes :=
  firstn (N.to_nat n) (flat_map word_bytes ws).
